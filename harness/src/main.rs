// Implementation side of the correspondence check: reads one s-expression case per line, runs the real crate,
// prints `<id> <K fields> ## <O fields>`; the K fields are compared with the extracted Coq model's line, the O
// fields are property oracles evaluated on the implementation alone.
#![allow(clippy::all)]
use slac::{
    check_boolean_result, check_variables_and_functions, compile,
    environment::{Environment, FunctionResult},
    execute,
    function::{Arity, Function},
    optimize,
    stdlib::{NativeError, NativeResult},
    Error, Expression, Operator, Scanner, StaticEnvironment, Token, Value,
};
use std::{
    cell::RefCell,
    collections::HashMap,
    io::{self, BufRead, Write},
    rc::Rc,
};

mod extra;
mod oracles;

#[derive(Debug, Clone)]
pub enum Sx {
    A(String),
    L(Vec<Sx>),
}
pub fn parse(s: &str) -> Sx {
    fn item(b: &[u8], mut i: usize) -> (Sx, usize) {
        while b[i] == b' ' {
            i += 1;
        }
        if b[i] == b'(' {
            i += 1;
            let mut v = vec![];
            loop {
                while b[i] == b' ' {
                    i += 1;
                }
                if b[i] == b')' {
                    return (Sx::L(v), i + 1);
                }
                let (x, j) = item(b, i);
                v.push(x);
                i = j;
            }
        } else {
            let st = i;
            while i < b.len() && b[i] != b' ' && b[i] != b'(' && b[i] != b')' {
                i += 1;
            }
            (Sx::A(String::from_utf8(b[st..i].to_vec()).unwrap()), i)
        }
    }
    item(s.as_bytes(), 0).0
}
pub fn atom(x: &Sx) -> &str {
    match x {
        Sx::A(s) => s,
        _ => panic!("atom"),
    }
}
pub fn list(x: &Sx) -> &[Sx] {
    match x {
        Sx::L(v) => v,
        _ => panic!("list"),
    }
}
pub fn cps_to_string(xs: &[Sx]) -> String {
    xs.iter().map(|c| char::from_u32(atom(c).parse().unwrap()).unwrap()).collect()
}
pub fn string(x: &Sx) -> String {
    cps_to_string(&list(x)[1..])
}
pub fn value(x: &Sx) -> Value {
    let l = list(x);
    match atom(&l[0]) {
        "b" => Value::Boolean(atom(&l[1]) == "1"),
        "n" => Value::Number(f64::from_bits(atom(&l[1]).parse::<u64>().unwrap())),
        "s" => Value::String(string(x)),
        "a" => Value::Array(l[1..].iter().map(value).collect()),
        _ => panic!("value"),
    }
}
pub fn op(s: &str) -> Operator {
    use Operator::*;
    match s {
        "plus" => Plus,
        "minus" => Minus,
        "multiply" => Multiply,
        "divide" => Divide,
        "greater" => Greater,
        "greaterEqual" => GreaterEqual,
        "less" => Less,
        "lessEqual" => LessEqual,
        "equal" => Equal,
        "notEqual" => NotEqual,
        "and" => And,
        "or" => Or,
        "xor" => Xor,
        "not" => Not,
        "div" => Div,
        "mod" => Mod,
        "ternaryCondition" => TernaryCondition,
        _ => panic!("op"),
    }
}
pub fn op_name(o: Operator) -> &'static str {
    use Operator::*;
    match o {
        Plus => "plus",
        Minus => "minus",
        Multiply => "multiply",
        Divide => "divide",
        Greater => "greater",
        GreaterEqual => "greaterEqual",
        Less => "less",
        LessEqual => "lessEqual",
        Equal => "equal",
        NotEqual => "notEqual",
        And => "and",
        Or => "or",
        Xor => "xor",
        Not => "not",
        Div => "div",
        Mod => "mod",
        TernaryCondition => "ternaryCondition",
    }
}
pub fn expr(x: &Sx) -> Expression {
    let l = list(x);
    let bx = |e: &Sx| Box::new(expr(e));
    match atom(&l[0]) {
        "un" => Expression::Unary { right: bx(&l[2]), operator: op(atom(&l[1])) },
        "bin" => Expression::Binary { left: bx(&l[2]), right: bx(&l[3]), operator: op(atom(&l[1])) },
        "ter" => Expression::Ternary { left: bx(&l[2]), middle: bx(&l[3]), right: bx(&l[4]), operator: op(atom(&l[1])) },
        "arr" => Expression::Array { expressions: l[1..].iter().map(expr).collect() },
        "lit" => Expression::Literal { value: value(&l[1]) },
        "var" => Expression::Variable { name: string(&l[1]) },
        "call" => Expression::Call { name: string(&l[1]), params: l[2..].iter().map(expr).collect() },
        _ => panic!("expr"),
    }
}
pub fn show_str(s: &str) -> String {
    format!("(s{})", s.chars().map(|c| format!(" {}", c as u32)).collect::<String>())
}
pub fn show_value(v: &Value) -> String {
    match v {
        Value::Boolean(b) => format!("(b {})", *b as u8),
        Value::String(s) => show_str(s),
        Value::Number(f) => format!("(n {})", if f.is_nan() { 0x7ff8000000000000u64 } else { f.to_bits() }),
        Value::Array(a) => format!("(a{})", a.iter().map(|v| format!(" {}", show_value(v))).collect::<String>()),
    }
}
pub fn show_nerr(e: &NativeError) -> &'static str {
    match e {
        NativeError::FunctionNotFound(_) => "FunctionNotFound",
        NativeError::WrongParameterCount(_) => "WrongParameterCount",
        NativeError::WrongParameterType => "WrongParameterType",
        NativeError::IndexOutOfBounds(_) => "IndexOutOfBounds",
        NativeError::IndexNegative => "IndexNegative",
        NativeError::CustomError(_) => "CustomError",
    }
}
pub fn show_err(e: &Error) -> String {
    match e {
        Error::UndefinedVariable(n) => format!("err:UndefinedVariable:{}", show_str(n)),
        Error::InvalidUnaryOperator(o) => format!("err:InvalidUnaryOperator:{}", op_name(*o)),
        Error::InvalidBinaryOperator(o) => format!("err:InvalidBinaryOperator:{}", op_name(*o)),
        Error::InvalidTernaryOperator(o) => format!("err:InvalidTernaryOperator:{}", op_name(*o)),
        Error::NativeFunctionError(n, e) => format!("err:NativeFunctionError:{}:{}", show_str(n), show_nerr(e)),
        e => format!("err:other:{e:?}"),
    }
}
pub fn show_res(r: &Result<Value, Error>) -> String {
    match r {
        Ok(v) => format!("ok:{}", show_value(v)),
        Err(e) => show_err(e),
    }
}
pub fn show_expr(e: &Expression) -> String {
    match e {
        Expression::Unary { right, operator } => format!("(un {} {})", op_name(*operator), show_expr(right)),
        Expression::Binary { left, right, operator } => format!("(bin {} {} {})", op_name(*operator), show_expr(left), show_expr(right)),
        Expression::Ternary { left, middle, right, operator } => {
            format!("(ter {} {} {} {})", op_name(*operator), show_expr(left), show_expr(middle), show_expr(right))
        }
        Expression::Array { expressions } => format!("(arr{})", expressions.iter().map(|e| format!(" {}", show_expr(e))).collect::<String>()),
        Expression::Literal { value } => format!("(lit {})", show_value(value)),
        Expression::Variable { name } => format!("(var {})", show_str(name)),
        Expression::Call { name, params } => format!("(call {}{})", show_str(name), params.iter().map(|e| format!(" {}", show_expr(e))).collect::<String>()),
    }
}
pub fn show_tok(t: &Token) -> String {
    match t {
        Token::Literal(v) => format!("(lit {})", show_value(v)),
        Token::Identifier(n) => format!("(id {})", show_str(n)),
        other => format!("{other:?}"),
    }
}
pub fn show_cerr(e: &Error) -> String {
    match e {
        Error::Eof => "Eof".into(),
        Error::InvalidCharacter(c) => format!("InvalidCharacter:{}", *c as u32),
        Error::InvalidNumber(_) => "InvalidNumber".into(),
        Error::UnterminatedStringLiteral => "UnterminatedStringLiteral".into(),
        Error::MultipleExpressions(t) => format!("MultipleExpressions:{}", show_tok(t)),
        Error::NoValidPrefixToken(t) => format!("NoValidPrefixToken:{}", show_tok(t)),
        Error::NoValidInfixToken(t) => format!("NoValidInfixToken:{}", show_tok(t)),
        Error::CallNotOnVariable(t) => format!("CallNotOnVariable:{}", show_tok(t)),
        Error::InvalidToken(t) => format!("InvalidToken:{}", show_tok(t)),
        other => format!("other:{other:?}"),
    }
}
pub fn show_check(r: &Result<(), Error>) -> String {
    match r {
        Ok(()) => "ok".into(),
        Err(Error::MissingVariable(n)) => format!("MissingVariable:{}", show_str(n)),
        Err(Error::MissingFunction(n)) => format!("MissingFunction:{}", show_str(n)),
        Err(Error::ParamCountMismatch(n, k, _, _)) => format!("ParamCountMismatch:{}:{}", show_str(n), k),
        Err(e) => format!("other:{e:?}"),
    }
}

// ---------- scripted environment: variables by exact name, functions by kind; arity and purity decisions are
// delegated to a real StaticEnvironment in which every scripted function is registered ----------
#[derive(Clone)]
pub enum FKind {
    Const(Value),
    Fail,
    Echo,
    IfThen,
}
pub struct ScriptedEnv {
    pub vars: HashMap<String, Rc<Value>>,
    pub fns: HashMap<String, FKind>,
    pub inner: StaticEnvironment,
    pub trace: RefCell<Vec<String>>,
    pub impure_called: RefCell<bool>,
    pub pure_of: HashMap<String, bool>,
    pub arity_reg: HashMap<String, Arity>,   // the arity each scripted function was REGISTERED with (the oracle's own copy)
}
fn dummy(_p: &[Value]) -> NativeResult {
    Ok(Value::Boolean(false))
}
impl Environment for ScriptedEnv {
    fn variable(&self, name: &str) -> Option<Rc<Value>> {
        self.trace.borrow_mut().push(format!("L{}", show_str(name)));
        self.vars.get(name).cloned()
    }
    fn call(&self, name: &str, params: &[Value]) -> NativeResult {
        self.trace.borrow_mut().push(format!("C{}[{}]", show_str(name), params.iter().map(show_value).collect::<Vec<_>>().join(",")));
        if self.pure_of.get(name) == Some(&false) {
            *self.impure_called.borrow_mut() = true;
        }
        match self.fns.get(name) {
            None => Err(NativeError::FunctionNotFound(name.to_string())),
            Some(FKind::Const(v)) => Ok(v.clone()),
            Some(FKind::Fail) => Err(NativeError::CustomError("fail".into())),
            Some(FKind::Echo) => Ok(Value::Array(params.to_vec())),
            Some(FKind::IfThen) => slac::stdlib::common::if_then(params),
        }
    }
    fn variable_exists(&self, name: &str) -> bool {
        self.vars.contains_key(name)
    }
    fn function_exists(&self, name: &str, arity: usize) -> FunctionResult {
        self.inner.function_exists(name, arity)
    }
}
pub fn arity_of(a: &Sx) -> Arity {
    let a = list(a);
    match atom(&a[0]) {
        "poly" => Arity::Polyadic { required: atom(&a[1]).parse().unwrap(), optional: atom(&a[2]).parse().unwrap() },
        "variadic" => Arity::Variadic,
        _ => Arity::None,
    }
}
pub fn scripted_env(vars: &Sx, fns: &Sx) -> ScriptedEnv {
    let mut env = ScriptedEnv {
        vars: HashMap::new(),
        fns: HashMap::new(),
        inner: StaticEnvironment::default(),
        trace: RefCell::new(vec![]),
        impure_called: RefCell::new(false),
        pure_of: HashMap::new(),
        arity_reg: HashMap::new(),
    };
    for v in &list(vars)[1..] {
        let p = list(v);
        env.vars.insert(string(&p[0]), Rc::new(value(&p[1])));
    }
    for f in &list(fns)[1..] {
        let p = list(f);
        let name = string(&p[0]);
        let k = list(&p[1]);
        let kind = match atom(&k[0]) {
            "const" => FKind::Const(value(&k[1])),
            "fail" => FKind::Fail,
            "echo" => FKind::Echo,
            _ => FKind::IfThen,
        };
        let pure = atom(&p[3]) == "1";
        let ar = arity_of(&p[2]);
        env.inner.add_function(if pure { Function::new(dummy, ar, &name) } else { Function::impure(dummy, ar, &name) });
        env.pure_of.insert(name.clone(), pure);
        env.arity_reg.insert(name.clone(), ar);
        env.fns.insert(name, kind);
    }
    env
}

// result-position leaves: variables and calls whose kind check_boolean_result documents as unknown
fn result_leaves<'a>(e: &'a Expression, out: &mut Vec<&'a Expression>) {
    match e {
        Expression::Ternary { middle, right, operator: Operator::TernaryCondition, .. } => {
            result_leaves(middle, out);
            result_leaves(right, out);
        }
        Expression::Variable { .. } | Expression::Call { .. } => out.push(e),
        _ => {}
    }
}
pub fn count_nodes(e: &Expression) -> usize {
    match e {
        Expression::Unary { right, .. } => 1 + count_nodes(right),
        Expression::Binary { left, right, .. } => 1 + count_nodes(left) + count_nodes(right),
        Expression::Ternary { left, middle, right, .. } => 1 + count_nodes(left) + count_nodes(middle) + count_nodes(right),
        Expression::Array { expressions } => 1 + expressions.iter().map(count_nodes).sum::<usize>(),
        Expression::Call { params, .. } => 1 + params.iter().map(count_nodes).sum::<usize>(),
        _ => 1,
    }
}
fn is_lit(e: &Expression) -> bool {
    matches!(e, Expression::Literal { .. })
}
// independent syntactic check of C06's "no constant-foldable node"
// the syntactic predicate of C06, decided from the REGISTRATION data of the case (name, arity, purity) - not by asking the environment under test
pub fn foldable(env: &ScriptedEnv, e: &Expression) -> bool {
    let within = |name: &str, n: usize| match env.arity_reg.get(name) {
        Some(Arity::Polyadic { required, optional }) => n >= *required && n <= required + optional,
        Some(Arity::Variadic) => n >= 1,
        Some(Arity::None) => n == 0,
        None => false,
    };
    match e {
        Expression::Unary { right, .. } => is_lit(right) || foldable(env, right),
        Expression::Binary { left, right, .. } => (is_lit(left) && is_lit(right)) || foldable(env, left) || foldable(env, right),
        Expression::Ternary { left, middle, right, operator } => {
            (is_lit(left) && *operator == Operator::TernaryCondition) || foldable(env, left) || foldable(env, middle) || foldable(env, right)
        }
        Expression::Array { expressions } => expressions.iter().all(is_lit) || expressions.iter().any(|x| foldable(env, x)),
        Expression::Call { name, params } => {
            (name == "if_then" && params.len() == 3)
                || (params.iter().all(is_lit) && env.pure_of.get(name) == Some(&true) && within(name, params.len()))
                || params.iter().any(|x| foldable(env, x))
        }
        _ => false,
    }
}
pub fn has_if_then3(e: &Expression) -> bool {
    match e {
        Expression::Unary { right, .. } => has_if_then3(right),
        Expression::Binary { left, right, .. } => has_if_then3(left) || has_if_then3(right),
        Expression::Ternary { left, middle, right, .. } => has_if_then3(left) || has_if_then3(middle) || has_if_then3(right),
        Expression::Array { expressions } => expressions.iter().any(has_if_then3),
        Expression::Call { name, params } => (name == "if_then" && params.len() == 3) || params.iter().any(has_if_then3),
        _ => false,
    }
}
fn clone_err(x: &Error) -> String {
    show_err(x)
}
fn same_res(a: &Result<Value, Error>, b: &Result<Value, Error>) -> bool {
    show_res(a) == show_res(b)
}

fn main() {
    let stdin = io::stdin();
    let out = io::stdout();
    let mut out = io::BufWriter::new(out.lock());
    let flush = std::env::var("VERIF_FLUSH").is_ok();
    std::panic::set_hook(Box::new(|_| {}));
    for line in stdin.lock().lines() {
        let line = line.unwrap();
        if line.is_empty() {
            continue;
        }
        let c = parse(&line);
        let l = list(&c);
        let kind = atom(&l[0]);
        let id = atom(&l[1]);
        let res = std::panic::catch_unwind(std::panic::AssertUnwindSafe(|| run_case(kind, l)));
        match res {
            Ok(s) => writeln!(out, "{} {}", id, s).unwrap(),
            Err(_) => writeln!(out, "{} R=PANIC ## panic=FAILS", id).unwrap(),
        }
        if flush {
            out.flush().unwrap();
        }
    }
}

fn run_case(kind: &str, l: &[Sx]) -> String {
    match kind {
        "text" | "scan" => {
            let text = cps_to_string(&l[2..]);
            if kind == "text" {
                // long inputs are compiled on a thread with a small stack (192 KiB): at bounded nesting the parser's stack use must not grow with the LENGTH of
                // the input, and a small stack shows such growth at a few hundred tokens instead of tens of thousands (an overflow aborts the process: CRASH).
                // The result is printed and dropped on the main thread.
                let r = if text.len() > 2000 {
                    let t = text.clone();
                    std::thread::Builder::new().stack_size(192 * 1024).spawn(move || compile(&t)).unwrap().join().unwrap()
                } else {
                    compile(&text)
                };
                match r {
                    Ok(e) => format!("R=ok:{}", show_expr(&e)),
                    Err(e) => format!("R=err:{}", show_cerr(&e)),
                }
            } else {
                match Scanner::tokenize(&text) {
                    Ok(ts) => format!("R=ok:{}", ts.iter().map(show_tok).collect::<Vec<_>>().join(" ")),
                    Err(e) => format!("R=err:{}", show_cerr(&e)),
                }
            }
        }
        "case" => {
            let env = scripted_env(&l[2], &l[3]);
            let e = expr(&l[4]);
            let cb = check_boolean_result(&e);
            let cn = check_variables_and_functions(&env, &e);
            env.trace.borrow_mut().clear();
            let r = execute(&env, &e);
            let trace = env.trace.borrow().join(";");
            // O11: accepted by check_boolean_result, result-position leaves Boolean => result Boolean
            let mut leaves = vec![];
            result_leaves(&e, &mut leaves);
            let leaves_ok = leaves.iter().all(|x| !matches!(execute(&env, x), Ok(v) if !matches!(v, Value::Boolean(_))));
            let o11 = if cb.is_ok() && leaves_ok {
                match &r {
                    Ok(Value::Boolean(_)) | Err(_) => "holds",
                    Ok(_) => "FAILS",
                }
            } else {
                "n/a"
            };
            // O10: accepted by check_variables_and_functions => never UndefinedVariable / FunctionNotFound
            let o10 = if cn.is_ok() {
                match &r {
                    Err(Error::UndefinedVariable(_)) | Err(Error::NativeFunctionError(_, NativeError::FunctionNotFound(_))) => "FAILS",
                    _ => "holds",
                }
            } else {
                "n/a"
            };
            // determinism of execute on the same tree and environment
            let r2 = execute(&env, &e);
            let odet = if same_res(&r, &r2) { "holds" } else { "FAILS" };
            format!("R={} T={} CB={} CN={} ## O11={} O10={} det={}", show_res(&r), trace, if cb.is_ok() { "ok" } else { "rej" }, show_check(&cn), o11, o10, odet)
        }
        "opt" => {
            let env = scripted_env(&l[2], &l[3]);
            let mut e = expr(&l[4]);
            let orig = e.clone();
            let cnb = check_variables_and_functions(&env, &e);
            let before = execute(&env, &e);
            env.trace.borrow_mut().clear();
            *env.impure_called.borrow_mut() = false;
            let st = optimize(&env, &mut e);
            let trace: Vec<String> = env.trace.borrow().clone();
            let impure = *env.impure_called.borrow();
            let after = execute(&env, &e);
            let cna = check_variables_and_functions(&env, &e);
            let sst = match &st {
                Ok(()) => "ok".to_string(),
                Err(x) => clone_err(x),
            };
            // O05: resolved and value before => identical value after; no if_then/3 => identical result
            let o05v = if cnb.is_ok() {
                match &before {
                    Ok(_) => if same_res(&before, &after) { "holds" } else { "FAILS" },
                    Err(_) => "n/a",
                }
            } else {
                "n/a"
            };
            let mut o05x = if !has_if_then3(&orig) { if same_res(&before, &after) { "holds" } else { "FAILS" } } else { "n/a" };
            // ... "under every variable binding, defined or not": the tree optimized under THIS binding, executed under other bindings of the same variables
            // (every value replaced by another one of its kind, by one of another kind, and all variables unbound)
            if st.is_ok() {
                for mode in 0..3 {
                    let mut env2 = scripted_env(&l[2], &l[3]);
                    let names: Vec<String> = env2.vars.keys().cloned().collect();
                    for n in names {
                        let old = env2.vars.get(&n).cloned().unwrap();
                        let nv = match (mode, old.as_ref()) {
                            (0, Value::Number(x)) => Some(Value::Number(if x.is_finite() { *x * 2.0 + 1.5 } else { 3.0 })),
                            (0, Value::String(t)) => Some(Value::String(format!("{t}x"))),
                            (0, Value::Boolean(b)) => Some(Value::Boolean(!*b)),
                            (0, Value::Array(a)) => Some(Value::Array(a.iter().cloned().chain([Value::Number(9.0)]).collect())),
                            (1, Value::Number(_)) => Some(Value::String("q".into())),
                            (1, Value::String(_)) => Some(Value::Number(10.0)),
                            (1, Value::Boolean(_)) => Some(Value::Array(vec![])),
                            (1, Value::Array(_)) => Some(Value::Boolean(true)),
                            _ => None,
                        };
                        match nv {
                            Some(v) => { env2.vars.insert(n, Rc::new(v)); }
                            None => { env2.vars.remove(&n); }
                        }
                    }
                    let b2 = execute(&env2, &orig);
                    let a2 = execute(&env2, &e);
                    let ok = if !has_if_then3(&orig) { same_res(&b2, &a2) } else { b2.is_err() || check_variables_and_functions(&env2, &orig).is_err() || same_res(&b2, &a2) };
                    if !ok {
                        o05x = "FAILS";
                    }
                }
            }
            // O06: no lookups, no impure calls, fixpoint, nothing foldable left, not more nodes
            let lookups = trace.iter().any(|t| t.starts_with('L'));
            let mut e2 = e.clone();
            let st2 = optimize(&env, &mut e2);
            let fix = if st.is_ok() { if st2.is_ok() && show_expr(&e2) == show_expr(&e) { "holds" } else { "FAILS" } } else { "n/a" };
            let minimal = if st.is_ok() { if foldable(&env, &e) { "FAILS" } else { "holds" } } else { "n/a" };
            let size = if count_nodes(&e) <= count_nodes(&orig) { "holds" } else { "FAILS" };
            let o10s = if cnb.is_ok() && st.is_ok() { if cna.is_ok() { "holds" } else { "FAILS" } } else { "n/a" };
            format!(
                "S={} E={} T={} B={} A={} CNB={} CNA={} ## O05v={} O05x={} nolookup={} noimpure={} fix={} minimal={} size={} O10s={}",
                sst,
                show_expr(&e),
                trace.join(";"),
                show_res(&before),
                show_res(&after),
                show_check(&cnb),
                show_check(&cna),
                o05v,
                o05x,
                if lookups { "FAILS" } else { "holds" },
                if impure { "FAILS" } else { "holds" },
                fix,
                minimal,
                size,
                o10s
            )
        }
        "bi" => {
            let name = string(&l[3]);
            let args: Vec<Value> = l[4..].iter().map(value).collect();
            let (func, pure) = crate::oracles::lookup(&name);
            let r = func(&args);
            let r2 = func(&args);
            let show = |r: &NativeResult| match r {
                Ok(v) => format!("ok:{}", show_value(v)),
                Err(e) => format!("err:{}", show_nerr(e)),
            };
            let det = if !pure || show(&r) == show(&r2) { "holds" } else { "FAILS" };
            format!("R={} ## det={}", show(&r), det)
        }
        "cmp" => {
            let (a, b) = (value(&l[2]), value(&l[3]));
            format!("R={:?} {}", a.cmp(&b), if a == b { "eq" } else { "ne" })
        }
        "ser" => {
            fn sj(v: &serde_json::Value) -> String {
                match v {
                    serde_json::Value::Null => "null".into(),
                    serde_json::Value::Bool(b) => format!("{b}"),
                    serde_json::Value::Number(n) => format!("#{}", n.as_f64().unwrap().to_bits()),
                    serde_json::Value::String(s) => show_str(s),
                    serde_json::Value::Array(a) => format!("[{}]", a.iter().map(sj).collect::<Vec<_>>().join(",")),
                    serde_json::Value::Object(o) => {
                        let mut fs: Vec<(String, String)> = o.iter().map(|(k, v)| (show_str(k), sj(v))).collect();
                        fs.sort();
                        format!("{{{}}}", fs.iter().map(|(k, v)| format!("{k}:{v}")).collect::<Vec<_>>().join(","))
                    }
                }
            }
            fn same(a: &Expression, b: &Expression) -> bool {
                show_expr(a) == show_expr(b) // bitwise on literals, NaN as one class
            }
            let e = expr(&l[2]);
            let jv = serde_json::to_value(&e).unwrap();
            let rv = match serde_json::from_value::<Expression>(jv.clone()) {
                Ok(b) => if same(&e, &b) { "same" } else { "diff" },
                Err(_) => "err",
            };
            let txt = serde_json::to_string(&e).unwrap();
            let rt = match serde_json::from_str::<Expression>(&txt) {
                Ok(b) => if same(&e, &b) { "same" } else { "diff" },
                Err(_) => "err",
            };
            format!("J={} RV={} ## RT={} roundtrip={}", sj(&jv), rv, rt, if rv == "same" && rt == "same" { "holds" } else { "FAILS" })
        }
        "env" => extra::env_case(l),
        _ => extra::run_extra(kind, l),
    }
}
